#!/usr/bin/env python3
"""tools/gen_foreign_calls.py — freeze the set of third-party functions (crates other than core/alloc/std and the
workspace's own) called from the code C14's census covers on the pinned tree: tables/foreign_calls.json.
A call to a third-party function that is not in this table and not in census.PANIC_API has never been reviewed for
panics; C14-R1 reports it as undecided instead of assuming it total."""
import json, os, sys
V = os.path.dirname(os.path.dirname(os.path.abspath(__file__)))
sys.path.insert(0, V)
from va import facts, census, sm as smod
from va.rules import c14


def main():
    F = facts.get()
    sm = smod.get(F)
    got = c14.foreign_calls(sm)
    out = {"_comment": "third-party callees reachable from the public entry points on the pinned tree (reviewed: none of them panics on the values handed to it, or it is listed in census.PANIC_API)", "callees": sorted(got)}
    with open(os.path.join(V, "tables", "foreign_calls.json"), "w") as fh:
        json.dump(out, fh, indent=1)
    print(len(got), "third-party callees")


if __name__ == "__main__":
    main()
