#!/usr/bin/env python3
"""tools/confirm_seed.py <patch> <demo> <mode> [filter]
Confirm an externally proposed breaking change in a scratch copy of /repo (never in /repo itself):
 (1) with the patch the workspace builds and the unedited 248-test suite passes,
 (2) the demonstration fails with the patch and (3) passes without it.
mode: 'tests:<crate dir>'  -> demo copied to <crate dir>/tests/seed_demo.rs (integration test)
      'cat:<file>'         -> demo appended at the end of <file>
      'append:<file>'      -> demo appended inside the last `mod tests { .. }` of <file>
filter: test name filter for the demo (default 'seed_demo' for tests: mode).
Prints a JSON summary."""
import json, os, re, shutil, subprocess, sys, tempfile
patch, demo, mode = sys.argv[1], sys.argv[2], sys.argv[3]
flt = sys.argv[4] if len(sys.argv) > 4 else None
d = tempfile.mkdtemp(prefix="verif-seedchk-", dir="/var/tmp")
t = os.environ.get("SEED_TARGET") or tempfile.mkdtemp(prefix="verif-seedchk-target-", dir="/var/tmp")
env = dict(os.environ, CARGO_TARGET_DIR=t, CARGO_NET_OFFLINE="true")


def sh(cmd, cwd=d):
    return subprocess.run(cmd, cwd=cwd, env=env, stdout=subprocess.PIPE, stderr=subprocess.STDOUT, text=True)


def counts(out):
    return (sum(int(x) for x in re.findall(r"test result: \w+\. (\d+) passed", out)), sum(int(x) for x in re.findall(r"passed; (\d+) failed", out)))


def fresh_copy(delete=False):
    """Scratch copy of /repo's working tree.  Source mtimes are set to now: with a target directory shared between
    scratch copies cargo's mtime-based freshness test would otherwise reuse a binary built from another copy."""
    sh(["rsync", "-a"] + (["--delete"] if delete else []) + ["--exclude", "target", "--exclude", ".git", "/repo/", d + "/"], cwd="/")
    sh(["find", d, "-name", "*.rs", "-exec", "touch", "{}", "+"], cwd="/")


def install_demo():
    kind, where = mode.split(":", 1)
    if kind == "tests":
        os.makedirs(os.path.join(d, where, "tests"), exist_ok=True)
        shutil.copy(demo, os.path.join(d, where, "tests", "seed_demo.rs"))
    elif kind == "cat":
        with open(os.path.join(d, where), "a") as f:
            f.write("\n" + open(demo).read())
    else:
        p = os.path.join(d, where)
        s = open(p).read()
        i = s.rstrip().rfind("}")
        s = s[:i] + "\n" + open(demo).read() + "\n" + s[i:]
        open(p, "w").write(s)


def run_demo():
    kind, where = mode.split(":", 1)
    if kind == "tests":
        pkg = "omaha_client" if "omaha-client" in where else "mock-omaha-server"
        r = sh(["cargo", "test", "--offline", "--workspace", "--test", "seed_demo"])
    else:
        r = sh(["cargo", "test", "--offline", "--workspace", "--lib", "--", flt or "seed"])
    return r


res = {"patch": patch, "demo": demo, "mode": mode}
try:
    fresh_copy()
    # (3) without the change: demo passes
    install_demo()
    r = run_demo()
    p, f = counts(r.stdout)
    res["demo_without_change"] = {"passed": p, "failed": f, "compiled": "could not compile" not in r.stdout}
    if "could not compile" in r.stdout:
        res["demo_without_change"]["log"] = r.stdout[-1500:]
    # reset tree, apply change
    fresh_copy(delete=True)
    a = sh(["git", "apply", "--unsafe-paths", "--directory=" + d, patch], cwd="/") if False else sh(["patch", "-p1", "-s", "-i", patch])
    res["patch_applies"] = a.returncode == 0
    if a.returncode != 0:
        res["patch_log"] = a.stdout[-500:]
    else:
        # (1) existing suite
        r = sh(["cargo", "test", "--offline", "--workspace", "--no-fail-fast"])
        p, f = counts(r.stdout)
        res["existing_suite_with_change"] = {"compiled": "could not compile" not in r.stdout, "passed": p, "failed": f, "failing": re.findall(r"^test (\S+) \.\.\. FAILED", r.stdout, re.M)[:6]}
        # (2) demo fails with the change
        install_demo()
        r = run_demo()
        p, f = counts(r.stdout)
        res["demo_with_change"] = {"passed": p, "failed": f, "compiled": "could not compile" not in r.stdout, "failing": re.findall(r"^test (\S+) \.\.\. FAILED", r.stdout, re.M)[:6]}
    ok = res.get("patch_applies") and res["existing_suite_with_change"]["compiled"] and res["existing_suite_with_change"]["failed"] == 0 and res["existing_suite_with_change"]["passed"] >= 258 \
        and res["demo_without_change"]["compiled"] and res["demo_without_change"]["failed"] == 0 and res["demo_without_change"]["passed"] > 0 \
        and (res["demo_with_change"]["failed"] > 0 or not res["demo_with_change"]["compiled"])
    res["confirmed"] = bool(ok)
finally:
    shutil.rmtree(d, ignore_errors=True)
    if not os.environ.get("SEED_TARGET"):
        shutil.rmtree(t, ignore_errors=True)
print(json.dumps(res, indent=1))
