#!/usr/bin/env python3
"""tools/gen_known_functions.py — freeze the ids of all function items of the pinned tree (both crates):
tables/known_functions.json.  va/inline.py inlines private functions that are NOT in this table (helpers extracted by a
later refactoring) into their callers before the rules run."""
import json, os, sys
V = os.path.dirname(os.path.dirname(os.path.abspath(__file__)))
sys.path.insert(0, V)
from va import facts

F = facts.get()
ids = sorted(b["id"] for c in (F.client, F.server) for b in c.bodies if b.get("kind") == "fn")
json.dump({"_comment": "function items of the pinned tree; a private function that is not listed here is treated as an extracted helper and inlined into its callers (va/inline.py)", "ids": ids},
          open(os.path.join(V, "tables", "known_functions.json"), "w"), indent=0)
print(len(ids), "functions")
