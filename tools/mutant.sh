#!/bin/bash
# tools/mutant.sh <patch> <Cnn> [more ids...]  — apply a patch to a scratch copy of /repo, run checks there.
# Prints the check output; exit status = status of the last check.  The scratch copy is removed.
set -u
PATCH=$(realpath "$1"); shift
V=$(cd "$(dirname "$0")/.." && pwd)
D=$(mktemp -d /var/tmp/verif-mut-XXXXXX)
trap 'rm -rf "$D"' EXIT
rsync -a --exclude target --exclude .git /repo/ "$D/"
( cd "$D" && patch -p1 -s < "$PATCH" ) || { echo "PATCH-FAILED"; exit 3; }
rc=0
for id in "$@"; do
  ( cd "$V" && VERIF_REPO="$D" VERIF_EVIDENCE_DIR="$D/.evidence" python3 -m va.check "$id" ) 
  rc=$?
done
exit $rc
