// Facts driver: a rustc_private wrapper that dumps, for every workspace crate, the type-checked
// program (pre-borrowck MIR of every fn/closure/coroutine body, ADTs, impls, consts, unsafe blocks)
// as one JSON file under $VERIF_FACTS_DIR.  Injected through RUSTC_WORKSPACE_WRAPPER.
#![feature(rustc_private)]
#![allow(clippy::all)]

extern crate rustc_abi;
extern crate rustc_driver;
extern crate rustc_hir;
extern crate rustc_interface;
extern crate rustc_middle;
extern crate rustc_session;
extern crate rustc_span;

mod json;
use json::J;

use rustc_driver::{Callbacks, Compilation};
use rustc_hir::def::DefKind;
use rustc_hir::def_id::{DefId, LocalDefId, LOCAL_CRATE};
use rustc_hir::intravisit::{self, Visitor};
use rustc_interface::interface;
use rustc_middle::mir::{self, *};
use rustc_middle::ty::print::with_no_trimmed_paths;
use rustc_middle::ty::{self, GenericArgKind, Instance, Ty, TyCtxt, TypingEnv};
use rustc_span::Span;
use std::collections::HashMap;

struct Cb;

impl Callbacks for Cb {
    fn after_expansion<'tcx>(&mut self, _c: &interface::Compiler, tcx: TyCtxt<'tcx>) -> Compilation {
        let dir = match std::env::var("VERIF_FACTS_DIR") {
            Ok(d) => d,
            Err(_) => return Compilation::Continue,
        };
        let krate = tcx.crate_name(LOCAL_CRATE).to_string();
        let crate_types = format!("{:?}", tcx.crate_types());
        let kind = if crate_types.contains("Executable") { "bin" } else { "lib" };
        let mut ex = Ex { tcx, tys: HashMap::new(), ty_tab: vec![], named_consts: vec![] };
        let out = ex.run(&krate, kind);
        let path = format!("{}/{}.{}.json", dir, krate, kind);
        let tmp = format!("{}.tmp{}", path, std::process::id());
        std::fs::write(&tmp, out).expect("write facts");
        std::fs::rename(&tmp, &path).expect("rename facts");
        Compilation::Continue
    }
}

struct Ex<'tcx> {
    tcx: TyCtxt<'tcx>,
    tys: HashMap<Ty<'tcx>, usize>,
    ty_tab: Vec<J>,
    named_consts: Vec<DefId>,
}

fn s(x: impl Into<String>) -> J {
    J::S(x.into())
}
fn n(x: usize) -> J {
    J::N(x as i128)
}
fn obj(v: Vec<(&str, J)>) -> J {
    J::O(v.into_iter().map(|(k, v)| (k.to_string(), v)).collect())
}

impl<'tcx> Ex<'tcx> {
    fn dp(&self, d: DefId) -> String {
        with_no_trimmed_paths!(self.tcx.def_path_str(d))
    }
    fn did(&self, d: DefId) -> String {
        format!("{}{}", self.tcx.crate_name(d.krate), self.tcx.def_path(d).to_string_no_crate_verbose())
    }

    fn span(&self, sp: Span) -> J {
        let sm = self.tcx.sess.source_map();
        let mut v = vec![];
        let mut mac: Option<String> = None;
        let mut cur = sp;
        let mut guard = 0;
        while cur.from_expansion() && guard < 64 {
            let ed = cur.ctxt().outer_expn_data();
            mac = Some(format!("{}", ed.kind.descr()));
            cur = ed.call_site;
            guard += 1;
        }
        let lo = sm.lookup_char_pos(cur.lo());
        let file = format!("{}", lo.file.name.prefer_local_unconditionally());
        v.push(("f", s(file)));
        v.push(("l", n(lo.line)));
        if let Some(m) = mac {
            v.push(("x", s(m)));
            // innermost location too (where the expanded tokens live)
            let ilo = sm.lookup_char_pos(sp.lo());
            v.push(("il", n(ilo.line)));
        }
        obj(v)
    }

    fn ty(&mut self, t: Ty<'tcx>) -> J {
        n(self.ty_id(t))
    }

    fn ty_id(&mut self, t: Ty<'tcx>) -> usize {
        if let Some(&i) = self.tys.get(&t) {
            return i;
        }
        let idx = self.ty_tab.len();
        self.tys.insert(t, idx);
        self.ty_tab.push(J::Null);
        let st = with_no_trimmed_paths!(format!("{}", t));
        let mut v: Vec<(&str, J)> = vec![("s", s(st))];
        match t.kind() {
            ty::Adt(def, args) => {
                v.push(("k", s("adt")));
                v.push(("d", s(self.dp(def.did()))));
                let a = self.gargs(args);
                v.push(("a", a));
            }
            ty::Ref(_, inner, m) => {
                v.push(("k", s("ref")));
                v.push(("m", J::B(m.is_mut())));
                let a = self.ty(*inner);
                v.push(("a", J::A(vec![a])));
            }
            ty::RawPtr(inner, m) => {
                v.push(("k", s("ptr")));
                v.push(("m", J::B(m.is_mut())));
                let a = self.ty(*inner);
                v.push(("a", J::A(vec![a])));
            }
            ty::Slice(inner) => {
                v.push(("k", s("slice")));
                let a = self.ty(*inner);
                v.push(("a", J::A(vec![a])));
            }
            ty::Array(inner, len) => {
                v.push(("k", s("array")));
                let a = self.ty(*inner);
                v.push(("a", J::A(vec![a])));
                v.push(("len", s(format!("{}", len))));
            }
            ty::Tuple(list) => {
                v.push(("k", s("tuple")));
                let a: Vec<J> = list.iter().map(|x| self.ty(x)).collect();
                v.push(("a", J::A(a)));
            }
            ty::Closure(def, args) => {
                v.push(("k", s("closure")));
                v.push(("d", s(self.dp(*def))));
                v.push(("id", s(self.did(*def))));
                let a = self.gargs(args);
                v.push(("a", a));
            }
            ty::Coroutine(def, args) => {
                v.push(("k", s("coroutine")));
                v.push(("d", s(self.dp(*def))));
                v.push(("id", s(self.did(*def))));
                let a = self.gargs(args);
                v.push(("a", a));
            }
            ty::CoroutineClosure(def, args) => {
                v.push(("k", s("coroutine_closure")));
                v.push(("d", s(self.dp(*def))));
                v.push(("id", s(self.did(*def))));
                let a = self.gargs(args);
                v.push(("a", a));
            }
            ty::FnDef(def, args) => {
                v.push(("k", s("fndef")));
                v.push(("d", s(self.dp(*def))));
                v.push(("id", s(self.did(*def))));
                let a = self.gargs(args);
                v.push(("a", a));
            }
            ty::FnPtr(..) => v.push(("k", s("fnptr"))),
            ty::Dynamic(..) => v.push(("k", s("dyn"))),
            ty::Param(p) => {
                v.push(("k", s("param")));
                v.push(("d", s(p.name.to_string())));
            }
            ty::Alias(at) => {
                v.push(("k", s("alias")));
                v.push(("d", s(self.dp(at.kind.def_id()))));
                let a = self.gargs(at.args);
                v.push(("a", a));
                if let ty::AliasTyKind::Opaque { def_id } = at.kind {
                    v.push(("opaque", J::B(true)));
                    let tcx = self.tcx;
                    let r = std::panic::catch_unwind(std::panic::AssertUnwindSafe(|| {
                        tcx.type_of(def_id).instantiate(tcx, at.args).skip_norm_wip()
                    }));
                    if let Ok(h) = r {
                        let hid = self.ty(h);
                        v.push(("hidden", hid));
                    }
                }
            }
            ty::Never => v.push(("k", s("never"))),
            ty::Bool | ty::Char | ty::Int(_) | ty::Uint(_) | ty::Float(_) | ty::Str => v.push(("k", s("prim"))),
            _ => v.push(("k", s("other"))),
        }
        self.ty_tab[idx] = obj(v);
        idx
    }

    fn gargs(&mut self, args: ty::GenericArgsRef<'tcx>) -> J {
        let mut out = vec![];
        for a in args.iter() {
            match a.kind() {
                GenericArgKind::Type(t) => out.push(self.ty(t)),
                GenericArgKind::Const(c) => out.push(s(format!("{}", c))),
                GenericArgKind::Lifetime(_) => {}
            }
        }
        J::A(out)
    }

    fn place(&mut self, body: &Body<'tcx>, p: &Place<'tcx>) -> J {
        let mut proj = vec![];
        let mut pty = mir::PlaceTy::from_ty(body.local_decls[p.local].ty);
        for e in p.projection.iter() {
            let j = match e {
                ProjectionElem::Deref => obj(vec![("k", s("deref"))]),
                ProjectionElem::Field(f, t) => {
                    let mut v = vec![("k", s("field")), ("i", n(f.index())), ("t", self.ty(t))];
                    // field name where available
                    if let ty::Adt(def, _) = pty.ty.kind() {
                        let vi = pty.variant_index.unwrap_or(rustc_abi::FIRST_VARIANT);
                        if def.is_enum() || def.is_struct() || def.is_union() {
                            if let Some(var) = def.variants().get(vi) {
                                if let Some(fd) = var.fields.get(f) {
                                    v.push(("n", s(fd.name.to_string())));
                                }
                            }
                        }
                    }
                    obj(v)
                }
                ProjectionElem::Index(l) => obj(vec![("k", s("index")), ("l", n(l.index()))]),
                ProjectionElem::ConstantIndex { offset, min_length, from_end } => obj(vec![
                    ("k", s("cindex")),
                    ("off", n(offset as usize)),
                    ("min", n(min_length as usize)),
                    ("end", J::B(from_end)),
                ]),
                ProjectionElem::Subslice { from, to, from_end } => obj(vec![
                    ("k", s("subslice")),
                    ("from", n(from as usize)),
                    ("to", n(to as usize)),
                    ("end", J::B(from_end)),
                ]),
                ProjectionElem::Downcast(name, vi) => {
                    let mut v = vec![("k", s("downcast")), ("v", n(vi.index()))];
                    let nm = match name {
                        Some(sym) => Some(sym.to_string()),
                        None => {
                            if let ty::Adt(def, _) = pty.ty.kind() {
                                def.variants().get(vi).map(|x| x.name.to_string())
                            } else {
                                None
                            }
                        }
                    };
                    if let Some(nm) = nm {
                        v.push(("n", s(nm)));
                    }
                    obj(v)
                }
                ProjectionElem::OpaqueCast(t) => obj(vec![("k", s("opaquecast")), ("t", self.ty(t))]),
                ProjectionElem::UnwrapUnsafeBinder(t) => obj(vec![("k", s("unwrapbinder")), ("t", self.ty(t))]),
            };
            proj.push(j);
            pty = pty.projection_ty(self.tcx, e);
        }
        let mut v = vec![("l", n(p.local.index()))];
        if !proj.is_empty() {
            v.push(("p", J::A(proj)));
            v.push(("t", self.ty(pty.ty)));
        }
        obj(v)
    }

    fn bytes_of_const(&self, c: &mir::Const<'tcx>, owner: DefId) -> Option<Vec<u8>> {
        let tcx = self.tcx;
        let val = match c {
            mir::Const::Val(v, _) => Some(*v),
            mir::Const::Ty(..) => None,
            mir::Const::Unevaluated(u, _) => {
                if u.promoted.is_some() {
                    None
                } else {
                    let env = TypingEnv::post_analysis(tcx, owner);
                    c.eval(tcx, env, rustc_span::DUMMY_SP).ok()
                }
            }
        }?;
        let t = c.ty();
        // &str / &[u8]
        let is_slice_ty = matches!(t.kind(), ty::Ref(_, i, _) if i.is_str() || matches!(i.kind(), ty::Slice(e) if *e == tcx.types.u8));
        if is_slice_ty && matches!(val, mir::ConstValue::Slice { .. }) {
            if let Some(b) = val.try_get_slice_bytes_for_diagnostics(tcx) {
                return Some(b.to_vec());
            }
        }
        // &[u8; N]
        if let ty::Ref(_, inner, _) = t.kind() {
            if let ty::Array(et, len) = inner.kind() {
                if *et == tcx.types.u8 {
                    if let mir::ConstValue::Scalar(mir::interpret::Scalar::Ptr(ptr, _)) = val {
                        let (prov, off) = ptr.prov_and_relative_offset();
                        let alloc = tcx.global_alloc(prov.alloc_id());
                        if let mir::interpret::GlobalAlloc::Memory(m) = alloc {
                            let l = len.try_to_target_usize(tcx)? as usize;
                            let start = off.bytes() as usize;
                            let a = m.inner();
                            let bytes = a.inspect_with_uninit_and_ptr_outside_interpreter(start..start + l);
                            return Some(bytes.to_vec());
                        }
                    }
                }
            }
        }
        None
    }

    fn constant(&mut self, c: &ConstOperand<'tcx>, owner: DefId, eval: bool) -> J {
        let tcx = self.tcx;
        let k = &c.const_;
        let t = k.ty();
        let mut v = vec![("t", self.ty(t)), ("s", s(with_no_trimmed_paths!(format!("{}", k))))];
        if let mir::Const::Unevaluated(u, _) = k {
            if let Some(p) = u.promoted {
                v.push(("promoted", n(p.index())));
            } else {
                v.push(("def", s(self.dp(u.def))));
                if !self.named_consts.contains(&u.def) {
                    self.named_consts.push(u.def);
                }
            }
        }
        if let ty::FnDef(..) = t.kind() {
            return obj(v);
        }
        if eval {
            let env = TypingEnv::post_analysis(tcx, owner);
            let is_prom = matches!(k, mir::Const::Unevaluated(u, _) if u.promoted.is_some());
            if !is_prom {
                if t.is_integral() || t.is_bool() || t.is_char() {
                    if let Some(si) = k.try_eval_scalar_int(tcx, env) {
                        let size = si.size();
                        let val: i128 = if t.is_signed() { si.to_int(size) } else { si.to_uint(size) as i128 };
                        v.push(("v", J::N(val)));
                    }
                } else if let Some(b) = self.bytes_of_const(k, owner) {
                    match std::str::from_utf8(&b) {
                        Ok(st) if matches!(t.kind(), ty::Ref(_, i, _) if i.is_str()) => v.push(("str", s(st))),
                        _ => v.push(("bytes", J::A(b.iter().map(|x| n(*x as usize)).collect()))),
                    }
                }
            }
        }
        obj(v)
    }

    fn operand(&mut self, body: &Body<'tcx>, o: &Operand<'tcx>, owner: DefId) -> J {
        match o {
            Operand::Copy(p) => obj(vec![("c", self.place(body, p))]),
            Operand::Move(p) => obj(vec![("m", self.place(body, p))]),
            Operand::Constant(c) => obj(vec![("k", self.constant(c, owner, true))]),
            #[allow(unreachable_patterns)]
            _ => obj(vec![("other", s(format!("{:?}", o)))]),
        }
    }

    fn rvalue(&mut self, body: &Body<'tcx>, r: &Rvalue<'tcx>, owner: DefId) -> J {
        match r {
            Rvalue::Use(o, ..) => obj(vec![("k", s("use")), ("o", self.operand(body, o, owner))]),
            Rvalue::Repeat(o, c) => obj(vec![
                ("k", s("repeat")),
                ("o", self.operand(body, o, owner)),
                ("n", s(format!("{}", c))),
            ]),
            Rvalue::Ref(_, bk, p) => obj(vec![
                ("k", s("ref")),
                ("m", J::B(matches!(bk, BorrowKind::Mut { .. }))),
                ("p", self.place(body, p)),
            ]),
            Rvalue::RawPtr(_, p) => obj(vec![("k", s("rawptr")), ("p", self.place(body, p))]),
            Rvalue::ThreadLocalRef(d) => obj(vec![("k", s("tls")), ("d", s(self.dp(*d)))]),
            Rvalue::Cast(ck, o, t) => obj(vec![
                ("k", s("cast")),
                ("ck", s(format!("{:?}", ck))),
                ("o", self.operand(body, o, owner)),
                ("t", self.ty(*t)),
            ]),
            Rvalue::BinaryOp(op, ab) => obj(vec![
                ("k", s("binop")),
                ("op", s(format!("{:?}", op))),
                ("a", self.operand(body, &ab.0, owner)),
                ("b", self.operand(body, &ab.1, owner)),
            ]),
            Rvalue::UnaryOp(op, o) => obj(vec![
                ("k", s("unop")),
                ("op", s(format!("{:?}", op))),
                ("o", self.operand(body, o, owner)),
            ]),
            Rvalue::Discriminant(p) => {
                let pt = p.ty(&body.local_decls, self.tcx).ty;
                obj(vec![("k", s("discr")), ("p", self.place(body, p)), ("t", self.ty(pt))])
            }
            Rvalue::Aggregate(kind, ops) => {
                let mut v = vec![("k", s("agg"))];
                match &**kind {
                    AggregateKind::Array(t) => {
                        v.push(("ak", s("array")));
                        v.push(("t", self.ty(*t)));
                    }
                    AggregateKind::Tuple => v.push(("ak", s("tuple"))),
                    AggregateKind::Adt(d, vi, args, _, active) => {
                        v.push(("ak", s("adt")));
                        v.push(("d", s(self.dp(*d))));
                        v.push(("v", n(vi.index())));
                        let ad = self.tcx.adt_def(*d);
                        let var = &ad.variants()[*vi];
                        v.push(("vn", s(var.name.to_string())));
                        let fns: Vec<J> = var.fields.iter().map(|f| s(f.name.to_string())).collect();
                        v.push(("fn", J::A(fns)));
                        let a = self.gargs(args);
                        v.push(("a", a));
                        if let Some(af) = active {
                            v.push(("active", n(af.index())));
                        }
                    }
                    AggregateKind::Closure(d, _) => {
                        v.push(("ak", s("closure")));
                        v.push(("d", s(self.dp(*d))));
                        v.push(("id", s(self.did(*d))));
                    }
                    AggregateKind::Coroutine(d, _) => {
                        v.push(("ak", s("coroutine")));
                        v.push(("d", s(self.dp(*d))));
                        v.push(("id", s(self.did(*d))));
                    }
                    AggregateKind::CoroutineClosure(d, _) => {
                        v.push(("ak", s("coroutine_closure")));
                        v.push(("d", s(self.dp(*d))));
                        v.push(("id", s(self.did(*d))));
                    }
                    AggregateKind::RawPtr(..) => v.push(("ak", s("rawptr"))),
                }
                let o: Vec<J> = ops.iter().map(|o| self.operand(body, o, owner)).collect();
                v.push(("ops", J::A(o)));
                obj(v)
            }
            Rvalue::CopyForDeref(p) => obj(vec![("k", s("copyderef")), ("p", self.place(body, p))]),
            other => obj(vec![("k", s("other")), ("s", s(format!("{:?}", other)))]),
        }
    }

    fn callee(&mut self, func: &Operand<'tcx>, owner: DefId) -> Vec<(&'static str, J)> {
        let tcx = self.tcx;
        let mut v = vec![];
        if let Operand::Constant(c) = func {
            if let ty::FnDef(def, args) = c.const_.ty().kind() {
                v.push(("callee", s(self.dp(*def))));
                v.push(("callee_id", s(self.did(*def))));
                v.push(("name", s(tcx.item_name(*def).to_string())));
                let a = self.gargs(args);
                v.push(("substs", a));
                if let Some(tr) = tcx.trait_of_assoc(*def) {
                    v.push(("trait", s(self.dp(tr))));
                }
                if let Some(im) = tcx.impl_of_assoc(*def) {
                    let st = tcx.type_of(im).instantiate_identity().skip_norm_wip();
                    v.push(("impl_self", s(with_no_trimmed_paths!(format!("{}", st)))));
                }
                if def.is_local() {
                    v.push(("local", J::B(true)));
                }
                let env = TypingEnv::post_analysis(tcx, owner);
                let res = std::panic::catch_unwind(std::panic::AssertUnwindSafe(|| {
                    Instance::try_resolve(tcx, env, *def, args)
                }));
                if let Ok(Ok(Some(inst))) = res {
                    let rd = inst.def_id();
                    if rd != *def {
                        v.push(("resolved", s(self.dp(rd))));
                        v.push(("resolved_id", s(self.did(rd))));
                        if rd.is_local() {
                            v.push(("resolved_local", J::B(true)));
                        }
                    }
                    v.push(("inst", s(format!("{:?}", inst.def).split('(').next().unwrap_or("").to_string())));
                }
                return v;
            }
        }
        v.push(("indirect", J::B(true)));
        v
    }

    fn terminator(&mut self, body: &Body<'tcx>, t: &Terminator<'tcx>, owner: DefId) -> J {
        let sp = self.span(t.source_info.span);
        let mut v: Vec<(&str, J)> = vec![("sp", sp)];
        match &t.kind {
            TerminatorKind::Goto { target } => {
                v.push(("k", s("goto")));
                v.push(("t", n(target.index())));
            }
            TerminatorKind::SwitchInt { discr, targets } => {
                v.push(("k", s("switch")));
                v.push(("o", self.operand(body, discr, owner)));
                let dt = discr.ty(&body.local_decls, self.tcx);
                v.push(("ot", self.ty(dt)));
                let mut arms = vec![];
                for (val, tgt) in targets.iter() {
                    arms.push(J::A(vec![J::N(val as i128), n(tgt.index())]));
                }
                v.push(("arms", J::A(arms)));
                v.push(("otherwise", n(targets.otherwise().index())));
            }
            TerminatorKind::UnwindResume => v.push(("k", s("resume"))),
            TerminatorKind::UnwindTerminate(_) => v.push(("k", s("terminate"))),
            TerminatorKind::Return => v.push(("k", s("return"))),
            TerminatorKind::Unreachable => v.push(("k", s("unreachable"))),
            TerminatorKind::Drop { place, target, .. } => {
                v.push(("k", s("drop")));
                v.push(("p", self.place(body, place)));
                v.push(("t", n(target.index())));
            }
            TerminatorKind::Call { func, args, destination, target, .. } => {
                v.push(("k", s("call")));
                let cv = self.callee(func, owner);
                if cv.iter().any(|(k, _)| *k == "indirect") {
                    v.push(("func", self.operand(body, func, owner)));
                }
                v.extend(cv);
                let a: Vec<J> = args.iter().map(|a| self.operand(body, &a.node, owner)).collect();
                v.push(("args", J::A(a)));
                let at: Vec<J> = args.iter().map(|a| {
                    let t = a.node.ty(&body.local_decls, self.tcx);
                    self.ty(t)
                }).collect();
                v.push(("argt", J::A(at)));
                v.push(("dest", self.place(body, destination)));
                let dt = destination.ty(&body.local_decls, self.tcx).ty;
                v.push(("destt", self.ty(dt)));
                if let Some(t) = target {
                    v.push(("t", n(t.index())));
                }
            }
            TerminatorKind::TailCall { .. } => v.push(("k", s("tailcall"))),
            TerminatorKind::Assert { cond, expected, msg, target, .. } => {
                v.push(("k", s("assert")));
                v.push(("cond", self.operand(body, cond, owner)));
                v.push(("expected", J::B(*expected)));
                let kind = match &**msg {
                    AssertKind::BoundsCheck { .. } => "BoundsCheck".to_string(),
                    AssertKind::Overflow(op, ..) => format!("Overflow({:?})", op),
                    AssertKind::OverflowNeg(_) => "OverflowNeg".to_string(),
                    AssertKind::DivisionByZero(_) => "DivisionByZero".to_string(),
                    AssertKind::RemainderByZero(_) => "RemainderByZero".to_string(),
                    AssertKind::ResumedAfterReturn(_) => "ResumedAfterReturn".to_string(),
                    AssertKind::ResumedAfterPanic(_) => "ResumedAfterPanic".to_string(),
                    AssertKind::ResumedAfterDrop(_) => "ResumedAfterDrop".to_string(),
                    AssertKind::MisalignedPointerDereference { .. } => "Misaligned".to_string(),
                    AssertKind::NullPointerDereference => "NullDeref".to_string(),
                    AssertKind::InvalidEnumConstruction(_) => "InvalidEnum".to_string(),
                };
                v.push(("msg", s(kind)));
                let mut ops = vec![];
                match &**msg {
                    AssertKind::BoundsCheck { len, index } => {
                        ops.push(self.operand(body, len, owner));
                        ops.push(self.operand(body, index, owner));
                    }
                    AssertKind::Overflow(_, a, b) => {
                        ops.push(self.operand(body, a, owner));
                        ops.push(self.operand(body, b, owner));
                    }
                    AssertKind::OverflowNeg(a) | AssertKind::DivisionByZero(a) | AssertKind::RemainderByZero(a) => {
                        ops.push(self.operand(body, a, owner));
                    }
                    _ => {}
                }
                v.push(("ops", J::A(ops)));
                v.push(("t", n(target.index())));
            }
            TerminatorKind::Yield { value, resume, drop, .. } => {
                v.push(("k", s("yield")));
                v.push(("value", self.operand(body, value, owner)));
                v.push(("t", n(resume.index())));
                if let Some(d) = drop {
                    v.push(("drop", n(d.index())));
                }
            }
            TerminatorKind::CoroutineDrop => v.push(("k", s("coroutine_drop"))),
            TerminatorKind::FalseEdge { real_target, imaginary_target } => {
                v.push(("k", s("falseedge")));
                v.push(("t", n(real_target.index())));
                v.push(("imag", n(imaginary_target.index())));
            }
            TerminatorKind::FalseUnwind { real_target, .. } => {
                v.push(("k", s("falseunwind")));
                v.push(("t", n(real_target.index())));
            }
            TerminatorKind::InlineAsm { .. } => v.push(("k", s("asm"))),
        }
        obj(v)
    }

    fn body(&mut self, body: &Body<'tcx>, owner: DefId) -> J {
        let mut locals = vec![];
        for (_l, d) in body.local_decls.iter_enumerated() {
            let mut v = vec![("t", self.ty(d.ty))];
            if d.is_user_variable() {
                v.push(("u", J::B(true)));
            }
            locals.push(obj(v));
        }
        let mut dbg = vec![];
        for vi in &body.var_debug_info {
            let mut v = vec![("n", s(vi.name.to_string()))];
            match &vi.value {
                VarDebugInfoContents::Place(p) => v.push(("p", self.place(body, p))),
                VarDebugInfoContents::Const(c) => v.push(("c", s(format!("{}", c.const_)))),
            }
            if let Some(a) = vi.argument_index {
                v.push(("arg", n(a as usize)));
            }
            dbg.push(obj(v));
        }
        let mut blocks = vec![];
        for (_bb, data) in body.basic_blocks.iter_enumerated() {
            let mut stmts = vec![];
            for st in &data.statements {
                match &st.kind {
                    StatementKind::Assign(b) => {
                        let (p, r) = &**b;
                        let sp = self.span(st.source_info.span);
                        stmts.push(obj(vec![
                            ("k", s("assign")),
                            ("p", self.place(body, p)),
                            ("r", self.rvalue(body, r, owner)),
                            ("sp", sp),
                        ]));
                    }
                    StatementKind::SetDiscriminant { place, variant_index } => {
                        stmts.push(obj(vec![
                            ("k", s("setdiscr")),
                            ("p", self.place(body, place)),
                            ("v", n(variant_index.index())),
                        ]));
                    }
                    StatementKind::StorageDead(l) => {
                        stmts.push(obj(vec![("k", s("dead")), ("l", n(l.index()))]));
                    }
                    StatementKind::StorageLive(l) => {
                        stmts.push(obj(vec![("k", s("live")), ("l", n(l.index()))]));
                    }
                    StatementKind::Intrinsic(i) => {
                        stmts.push(obj(vec![("k", s("intrinsic")), ("s", s(format!("{:?}", i)))]));
                    }
                    _ => {}
                }
            }
            let term = self.terminator(body, data.terminator(), owner);
            let mut v = vec![("s", J::A(stmts)), ("t", term)];
            if data.is_cleanup {
                v.push(("cleanup", J::B(true)));
            }
            blocks.push(obj(v));
        }
        obj(vec![
            ("argc", n(body.arg_count)),
            ("locals", J::A(locals)),
            ("dbg", J::A(dbg)),
            ("blocks", J::A(blocks)),
        ])
    }

    fn run(&mut self, krate: &str, kind: &str) -> String {
        let tcx = self.tcx;
        // pass 1: clone every body before anything can steal it
        let mut owned: Vec<(LocalDefId, Body<'tcx>, Vec<Body<'tcx>>)> = vec![];
        let mut stolen = 0usize;
        for def in tcx.hir_body_owners() {
            let dk = tcx.def_kind(def);
            if !matches!(dk, DefKind::Fn | DefKind::AssocFn | DefKind::Closure) {
                continue;
            }
            let (b, p) = tcx.mir_promoted(def);
            if b.is_stolen() {
                stolen += 1;
                continue;
            }
            let body = b.borrow().clone();
            let proms: Vec<Body<'tcx>> = if p.is_stolen() { vec![] } else { p.borrow().iter().cloned().collect() };
            owned.push((def, body, proms));
        }
        // pass 2: serialise
        let mut bodies = vec![];
        for (def, body, proms) in &owned {
            let did = def.to_def_id();
            let dk = tcx.def_kind(*def);
            let mut v: Vec<(&str, J)> = vec![
                ("id", s(self.did(did))),
                ("name", s(self.dp(did))),
                ("item", s(tcx.opt_item_name(did).map(|x| x.to_string()).unwrap_or_default())),
                ("sp", self.span(tcx.def_span(did))),
            ];
            let bkind = if tcx.is_coroutine(did) {
                "coroutine"
            } else if dk == DefKind::Closure {
                "closure"
            } else {
                "fn"
            };
            v.push(("kind", s(bkind)));
            if dk == DefKind::Closure {
                let parent = tcx.local_parent(*def);
                v.push(("parent", s(self.did(parent.to_def_id()))));
            }
            if matches!(dk, DefKind::Fn | DefKind::AssocFn) {
                let vis = tcx.visibility(did);
                v.push(("pub", J::B(vis.is_public())));
                let sig = tcx.fn_sig(did).instantiate_identity().skip_norm_wip().skip_binder();
                let ins: Vec<J> = sig.inputs().iter().map(|t| self.ty(*t)).collect();
                v.push(("inputs", J::A(ins)));
                v.push(("output", self.ty(sig.output())));
                v.push(("unsafe", J::B(!sig.safety().is_safe())));
                v.push(("async", J::B(tcx.asyncness(did).is_async())));
                if let Some(im) = tcx.impl_of_assoc(did) {
                    let st = tcx.type_of(im).instantiate_identity().skip_norm_wip();
                    v.push(("impl_self", s(with_no_trimmed_paths!(format!("{}", st)))));
                    v.push(("impl_self_t", self.ty(st)));
                    if let Some(tr) = tcx.impl_opt_trait_ref(im) {
                        let tr = tr.instantiate_identity().skip_norm_wip();
                        v.push(("impl_trait", s(self.dp(tr.def_id))));
                        let a = self.gargs(tr.args);
                        v.push(("impl_trait_args", a));
                    }
                    let derived = tcx.is_automatically_derived(im);
                    if derived {
                        v.push(("derived", J::B(true)));
                    }
                }
                if let Some(tr) = tcx.trait_of_assoc(did) {
                    v.push(("trait_default", s(self.dp(tr))));
                }
            }
            let ret_t = body.local_decls[RETURN_PLACE].ty;
            v.push(("ret", self.ty(ret_t)));
            v.push(("mir", self.body(body, did)));
            let ps: Vec<J> = proms.iter().map(|p| self.body(p, did)).collect();
            v.push(("promoted", J::A(ps)));
            bodies.push(obj(v));
        }
        // ADTs, impls, consts, traits
        let mut adts = vec![];
        let mut impls = vec![];
        let mut traits = vec![];
        let mut consts = vec![];
        for ld in tcx.hir_crate_items(()).definitions() {
            let did = ld.to_def_id();
            match tcx.def_kind(ld) {
                DefKind::Struct | DefKind::Enum | DefKind::Union => {
                    let ad = tcx.adt_def(did);
                    let mut vars = vec![];
                    for (vi, var) in ad.variants().iter_enumerated() {
                        let discr = if ad.is_enum() {
                            let d = ad.discriminant_for_variant(tcx, vi);
                            J::S(format!("{}", d))
                        } else {
                            J::Null
                        };
                        let mut fields = vec![];
                        for f in var.fields.iter() {
                            let ft = tcx.type_of(f.did).instantiate_identity().skip_norm_wip();
                            fields.push(obj(vec![
                                ("n", s(f.name.to_string())),
                                ("t", self.ty(ft)),
                                ("pub", J::B(f.vis.is_public())),
                            ]));
                        }
                        vars.push(obj(vec![
                            ("n", s(var.name.to_string())),
                            ("discr", discr),
                            ("fields", J::A(fields)),
                        ]));
                    }
                    let kind = if ad.is_enum() { "enum" } else if ad.is_struct() { "struct" } else { "union" };
                    adts.push(obj(vec![
                        ("d", s(self.dp(did))),
                        ("id", s(self.did(did))),
                        ("kind", s(kind)),
                        ("repr", s(format!("{:?}", ad.repr().int))),
                        ("pub", J::B(tcx.visibility(did).is_public())),
                        ("variants", J::A(vars)),
                        ("sp", self.span(tcx.def_span(did))),
                    ]));
                }
                DefKind::Impl { .. } => {
                    let st = tcx.type_of(did).instantiate_identity().skip_norm_wip();
                    let mut v = vec![
                        ("id", s(self.did(did))),
                        ("self", s(with_no_trimmed_paths!(format!("{}", st)))),
                        ("self_t", self.ty(st)),
                        ("derived", J::B(tcx.is_automatically_derived(did))),
                        ("sp", self.span(tcx.def_span(did))),
                    ];
                    if let Some(tr) = tcx.impl_opt_trait_ref(did) {
                        let tr = tr.instantiate_identity().skip_norm_wip();
                        v.push(("trait", s(self.dp(tr.def_id))));
                        let a = self.gargs(tr.args);
                        v.push(("trait_args", a));
                    }
                    let items: Vec<J> = tcx
                        .associated_item_def_ids(did)
                        .iter()
                        .map(|i| obj(vec![("n", s(tcx.item_name(*i).to_string())), ("id", s(self.did(*i)))]))
                        .collect();
                    v.push(("items", J::A(items)));
                    impls.push(obj(v));
                }
                DefKind::Trait => {
                    let items: Vec<J> = tcx
                        .associated_item_def_ids(did)
                        .iter()
                        .map(|i| {
                            obj(vec![
                                ("n", s(tcx.item_name(*i).to_string())),
                                ("id", s(self.did(*i))),
                                ("kind", s(format!("{:?}", tcx.def_kind(*i)))),
                                ("default", J::B(tcx.defaultness(*i).has_value())),
                            ])
                        })
                        .collect();
                    traits.push(obj(vec![("d", s(self.dp(did))), ("id", s(self.did(did))), ("items", J::A(items))]));
                }
                DefKind::Const { .. } | DefKind::AssocConst { .. } => {
                    if !self.named_consts.contains(&did) {
                        self.named_consts.push(did);
                    }
                }
                _ => {}
            }
        }
        // named consts: evaluate (local ones without generics only)
        let ncs = self.named_consts.clone();
        for d in ncs {
            let generics = tcx.generics_of(d);
            if generics.count() != 0 {
                continue;
            }
            if !matches!(tcx.def_kind(d), DefKind::Const { .. } | DefKind::AssocConst { .. }) {
                continue;
            }
            let t = tcx.type_of(d).instantiate_identity().skip_norm_wip();
            let mut v = vec![("d", s(self.dp(d))), ("t", self.ty(t)), ("local", J::B(d.is_local()))];
            let r = std::panic::catch_unwind(std::panic::AssertUnwindSafe(|| tcx.const_eval_poly(d)));
            if let Ok(Ok(val)) = r {
                let c = mir::Const::Val(val, t);
                v.push(("s", s(with_no_trimmed_paths!(format!("{}", c)))));
                let env = TypingEnv::fully_monomorphized();
                if t.is_integral() || t.is_bool() || t.is_char() {
                    if let Some(si) = c.try_eval_scalar_int(tcx, env) {
                        let size = si.size();
                        let x: i128 = if t.is_signed() { si.to_int(size) } else { si.to_uint(size) as i128 };
                        v.push(("v", J::N(x)));
                    }
                } else if let Some(b) = self.bytes_of_const(&c, d) {
                    match std::str::from_utf8(&b) {
                        Ok(st) if matches!(t.kind(), ty::Ref(_, i, _) if i.is_str()) => v.push(("str", s(st))),
                        _ => v.push(("bytes", J::A(b.iter().map(|x| n(*x as usize)).collect()))),
                    }
                }
            }
            consts.push(obj(v));
        }
        // unsafe blocks (HIR)
        let mut unsafes = vec![];
        for def in tcx.hir_body_owners() {
            let Some(bid) = tcx.hir_maybe_body_owned_by(def) else { continue };
            let mut vis = UnsafeVis { found: vec![] };
            vis.visit_body(bid);
            for sp in vis.found {
                if sp.from_expansion() {
                    // derive / macro generated: keep but flag through span.x
                }
                unsafes.push(obj(vec![("body", s(self.did(def.to_def_id()))), ("sp", self.span(sp))]));
            }
        }
        // freeze probes for all local ADTs without type params is not generally useful; record for all
        // local struct types mentioned with lifetimes only
        let mut freeze = vec![];
        for ld in tcx.hir_crate_items(()).definitions() {
            if matches!(tcx.def_kind(ld), DefKind::Struct | DefKind::Enum) {
                let did = ld.to_def_id();
                let g = tcx.generics_of(did);
                if g.own_params.iter().all(|p| matches!(p.kind, ty::GenericParamDefKind::Lifetime)) {
                    let t = tcx.type_of(did).instantiate_identity().skip_norm_wip();
                    let env = TypingEnv::post_analysis(tcx, did);
                    let r = std::panic::catch_unwind(std::panic::AssertUnwindSafe(|| t.is_freeze(tcx, env)));
                    if let Ok(fz) = r {
                        freeze.push(obj(vec![("d", s(self.dp(did))), ("freeze", J::B(fz))]));
                    }
                }
            }
        }
        let tys = std::mem::take(&mut self.ty_tab);
        let top = obj(vec![
            ("crate", s(krate)),
            ("kind", s(kind)),
            ("stolen", n(stolen)),
            ("rustc", s(option_env!("CFG_VERSION").unwrap_or("nightly"))),
            ("bodies", J::A(bodies)),
            ("types", J::A(tys)),
            ("adts", J::A(adts)),
            ("impls", J::A(impls)),
            ("traits", J::A(traits)),
            ("consts", J::A(consts)),
            ("unsafe_blocks", J::A(unsafes)),
            ("freeze", J::A(freeze)),
        ]);
        let mut out = String::new();
        top.write(&mut out);
        out
    }
}

struct UnsafeVis {
    found: Vec<Span>,
}
impl<'v> Visitor<'v> for UnsafeVis {
    fn visit_block(&mut self, b: &'v rustc_hir::Block<'v>) {
        if let rustc_hir::BlockCheckMode::UnsafeBlock(_) = b.rules {
            self.found.push(b.span);
        }
        intravisit::walk_block(self, b);
    }
}

fn main() {
    let mut args: Vec<String> = std::env::args().collect();
    // RUSTC_WORKSPACE_WRAPPER: argv[1] is the real rustc path
    if args.len() > 1 && (args[1].ends_with("rustc") || args[1].contains("/rustc")) {
        args.remove(1);
    }
    rustc_driver::install_ice_hook("https://example.invalid", |_| ());
    let mut cb = Cb;
    rustc_driver::run_compiler(&args, &mut cb);
}
