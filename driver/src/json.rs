// Minimal JSON tree + writer (no external crates available to a rustc_private driver).
pub enum J {
    Null,
    B(bool),
    N(i128),
    S(String),
    A(Vec<J>),
    O(Vec<(String, J)>),
}

fn esc(s: &str, out: &mut String) {
    out.push('"');
    for c in s.chars() {
        match c {
            '"' => out.push_str("\\\""),
            '\\' => out.push_str("\\\\"),
            '\n' => out.push_str("\\n"),
            '\r' => out.push_str("\\r"),
            '\t' => out.push_str("\\t"),
            c if (c as u32) < 0x20 => out.push_str(&format!("\\u{:04x}", c as u32)),
            c => out.push(c),
        }
    }
    out.push('"');
}

impl J {
    pub fn write(&self, out: &mut String) {
        match self {
            J::Null => out.push_str("null"),
            J::B(b) => out.push_str(if *b { "true" } else { "false" }),
            J::N(n) => out.push_str(&n.to_string()),
            J::S(s) => esc(s, out),
            J::A(v) => {
                out.push('[');
                for (i, x) in v.iter().enumerate() {
                    if i > 0 {
                        out.push(',');
                    }
                    x.write(out);
                }
                out.push(']');
            }
            J::O(v) => {
                out.push('{');
                for (i, (k, x)) in v.iter().enumerate() {
                    if i > 0 {
                        out.push(',');
                    }
                    esc(k, out);
                    out.push(':');
                    x.write(out);
                }
                out.push('}');
            }
        }
    }
}
