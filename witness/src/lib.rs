//! E7 — type-level witnesses (thorough tier).  Every `compile_fail,E0xxx` witness has a compiling twin
//! that differs only by the offending line, so a witness whose path is merely wrong cannot pass.
//! Run with `cargo +nightly test --doc --offline` (error codes are only honoured on nightly).

/// C13-R3: a `Yield` cannot be forged outside the crate (its sender field is private).
/// ```compile_fail,E0603
/// let (tx, _rx) = futures::channel::mpsc::channel::<u32>(0);
/// let _forged = omaha_client::async_generator::Yield(tx);
/// ```
/// Twin: the only way to obtain one is `generate`.
/// ```
/// let (_tx, _rx) = futures::channel::mpsc::channel::<u32>(0);
/// let _g = omaha_client::async_generator::generate(|mut co: omaha_client::async_generator::Yield<u32>| async move { co.yield_(1).await; });
/// ```
pub struct C13YieldUnforgeable;

/// C13-R3: `Yield` is not `Clone` (a single producer owns the emission order).
/// ```compile_fail,E0277
/// fn assert_clone<T: Clone>() {}
/// assert_clone::<omaha_client::async_generator::Yield<u32>>();
/// ```
/// Twin:
/// ```
/// fn assert_clone<T: Clone>() {}
/// assert_clone::<u32>();
/// ```
pub struct C13YieldNotClone;

/// C11 witness: a `ControlHandle` cannot be built around an arbitrary sender (private field), so
/// replies cannot be forged nor requests injected from outside the crate.
/// ```compile_fail,E0603
/// let (tx, _rx) = futures::channel::mpsc::channel(0);
/// let _h = omaha_client::state_machine::ControlHandle(tx);
/// ```
/// Twin: handles are cloneable values obtained from `start()`.
/// ```
/// fn assert_clone<T: Clone>() {}
/// assert_clone::<omaha_client::state_machine::ControlHandle>();
/// ```
pub struct C11HandleOpaque;

/// C11 witness: the request type carrying the responder is private to the crate.
/// ```compile_fail,E0603
/// use omaha_client::state_machine::ControlRequest;
/// ```
/// Twin:
/// ```
/// use omaha_client::state_machine::StartUpdateCheckResponse;
/// let _ = StartUpdateCheckResponse::Started;
/// ```
pub struct C11RequestPrivate;

/// C15-R4: building does not consume the builder (compile-pass witness: build twice).
/// ```
/// use omaha_client::{configuration::{Config, Updater}, protocol::request::OS,
///     request_builder::{RequestBuilder, RequestParams}, cup_ecdsa::StandardCupv2Handler, common::App};
/// let config = Config { updater: Updater { name: "u".into(), version: [1, 2, 3, 4].into() }, os: OS::default(),
///     service_url: "http://example.com/".into(), omaha_public_keys: None };
/// let app = App::builder().id("a").version([1]).build();
/// let b = RequestBuilder::new(&config, &RequestParams::default()).add_update_check(&app);
/// let _one = b.build(None::<&StandardCupv2Handler>).unwrap();
/// let _two = b.build(None::<&StandardCupv2Handler>).unwrap();
/// ```
/// Twin (compile_fail): a by-value method does consume it.
/// ```compile_fail,E0382
/// use omaha_client::{configuration::{Config, Updater}, protocol::request::OS,
///     request_builder::{RequestBuilder, RequestParams}, common::App};
/// let config = Config { updater: Updater { name: "u".into(), version: [1, 2, 3, 4].into() }, os: OS::default(),
///     service_url: "http://example.com/".into(), omaha_public_keys: None };
/// let app = App::builder().id("a").version([1]).build();
/// let b = RequestBuilder::new(&config, &RequestParams::default());
/// let _one = b.add_update_check(&app);
/// let _two = b.add_update_check(&app);
/// ```
pub struct C15BuildBorrows;
